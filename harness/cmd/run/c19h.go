package main

import (
	"fmt"
	"sort"
	"strings"
	"time"
	"unicode/utf8"

	"github.com/blevesearch/bleve/v2/search"
	"github.com/blevesearch/bleve/v2/search/highlight"
	"github.com/blevesearch/bleve/v2/search/highlight/format/ansi"
	htmlfmt "github.com/blevesearch/bleve/v2/search/highlight/format/html"
	"github.com/blevesearch/bleve/v2/search/highlight/format/plain"
	simplefrag "github.com/blevesearch/bleve/v2/search/highlight/fragmenter/simple"
)

// ---- the highlighting mechanism against its Lean model (Model/Highlight.lean) ----

type c19Loc struct{ s, e, ap int }

func c19LocsStr(ls []*c19Loc) string {
	if len(ls) == 0 {
		return "-"
	}
	ps := make([]string, len(ls))
	for i, l := range ls {
		if l == nil {
			ps[i] = "nil"
		} else {
			ps[i] = fmt.Sprintf("%d:%d:%d", l.s, l.e, l.ap)
		}
	}
	return strings.Join(ps, ",")
}

func c19ToTL(ls []*c19Loc) highlight.TermLocations {
	out := make(highlight.TermLocations, len(ls))
	for i, l := range ls {
		if l != nil {
			out[i] = &highlight.TermLocation{Term: "x", Pos: i + 1, Start: l.s, End: l.e, ArrayPositions: search.ArrayPositions{uint64(l.ap)}}
		}
	}
	return out
}

// rune boundaries of a value as the forward decoder sees them
func c19Bounds(orig []byte) []int {
	b := []int{0}
	for i := 0; i < len(orig); {
		_, sz := utf8.DecodeRune(orig[i:])
		i += sz
		b = append(b, i)
	}
	return b
}

// term locations: mostly well formed, sorted and on rune boundaries (what an analyzer yields), with
// overlapping and nested ones; a share malformed (negative, start after end, beyond the value) or unsorted
func c19GenLocs(r *Rng, orig []byte, aps int) (ls []*c19Loc, wellFormed bool) {
	bounds := c19Bounds(orig)
	n := r.Intn(6)
	if r.Chance(15) {
		n += r.Intn(8)
	}
	wellFormed = true
	for k := 0; k < n; k++ {
		var s, e int
		switch c := r.Intn(100); {
		case c < 60: // on rune boundaries
			i := r.Intn(len(bounds))
			j := i + r.Intn(4)
			if j >= len(bounds) {
				j = len(bounds) - 1
			}
			s, e = bounds[i], bounds[j]
		case c < 80: // any byte offsets inside
			s = r.Intn(len(orig) + 1)
			e = s + r.Intn(len(orig)-s+1)
		case c < 88: // beyond the value
			s = r.Intn(len(orig) + 4)
			e = s + r.Intn(7)
		case c < 94: // start after end
			e = r.Intn(len(orig) + 2)
			s = e + 1 + r.Intn(5)
		default: // negative
			s = -1 - r.Intn(4)
			e = s + r.Intn(len(orig)+6)
			if r.Chance(50) {
				s, e = r.Intn(len(orig)+1), -1-r.Intn(4)
			}
		}
		if s < 0 || s > e || e > len(orig) {
			wellFormed = false
		}
		ls = append(ls, &c19Loc{s, e, r.Intn(aps)})
	}
	if !r.Chance(8) {
		sort.SliceStable(ls, func(a, b int) bool {
			if ls[a].ap != ls[b].ap {
				return ls[a].ap < ls[b].ap
			}
			return ls[a].s < ls[b].s
		})
	} else if n > 1 {
		wellFormed = false
	}
	return ls, wellFormed
}

func c19GenValue(r *Rng) []byte {
	alpha := []string{"a", "b", "fox", " ", " ", "é", "日", "本", "\xf0\x9f\x98\x80", "<", "&", "\"", "'", ">", "ß", "\xff", "\xe6\x97", "\xef\xbf\xbd", "\x80", "\xc3", "\xf0\x9f", "\xed\xa0\x80", "я"}
	valid := 12 // a prefix of alpha holding valid text only
	var sb strings.Builder
	l := r.Intn(40)
	onlyValid := r.Chance(60)
	for k := 0; k < l; k++ {
		if onlyValid {
			sb.WriteString(alpha[r.Intn(valid)])
		} else {
			sb.WriteString(alpha[r.Intn(len(alpha))])
		}
	}
	b := []byte(sb.String())
	return b[:len(b):len(b)]
}

func c19Highlight(t *Trace, r *Rng, tier string, inputs [][]byte) {
	limit := 5 * time.Second
	n := 600
	if tier == "thorough" {
		n = 12000
	}
	// (a) the three utf8 functions the fragmenter leans on
	decLine := func(p []byte) {
		r1, s1 := utf8.DecodeRune(p)
		r2, s2 := utf8.DecodeLastRune(p)
		t.Emit("highlight-model/utf8", len(p) > 0, "hdec "+hs(string(p)),
			fmt.Sprintf("%v:%d %v:%d %d", r1 == utf8.RuneError, s1, r2 == utf8.RuneError, s2, utf8.RuneCount(p)))
	}
	for _, in := range inputs {
		decLine(in)
	}
	lead := []byte{0x00, 0x41, 0x7f, 0x80, 0x8f, 0x90, 0x9f, 0xa0, 0xbf, 0xc0, 0xc1, 0xc2, 0xdf, 0xe0, 0xe1, 0xec, 0xed, 0xee, 0xef, 0xf0, 0xf1, 0xf3, 0xf4, 0xf5, 0xff, 0xbd}
	for i := 0; i < n; i++ {
		l := 1 + r.Intn(6)
		p := make([]byte, l)
		for k := range p {
			p[k] = lead[r.Intn(len(lead))]
		}
		decLine(p)
	}
	// (b)-(d) fragmenter, merge, formatters
	values := make([][]byte, 0, n+len(inputs))
	for _, in := range inputs {
		if len(in) <= 120 {
			values = append(values, in[:len(in):len(in)])
		}
	}
	for i := 0; i < n; i++ {
		values = append(values, c19GenValue(r))
	}
	sizes := []int{-1, 0, 1, 2, 3, 5, 8, 20, 200}
	frs := map[string]highlight.FragmentFormatter{
		"html":  htmlfmt.NewFragmentFormatter("<mark>", "</mark>"),
		"plain": plain.NewFragmentFormatter("[[", "]]"),
		"ansi":  ansi.NewFragmentFormatter(ansi.Bright),
	}
	frArgs := map[string]string{
		"html":  "1 " + hs("<mark>") + " " + hs("</mark>"),
		"plain": "0 " + hs("[[") + " " + hs("]]"),
		"ansi":  "0 " + hs(ansi.Bright) + " " + hs(ansi.Reset),
	}
	for _, orig := range values {
		ls, wf := c19GenLocs(r, orig, 1)
		size := sizes[r.Intn(len(sizes))]
		var frags []*highlight.Fragment
		res := runGuarded(limit, func() string {
			frags = simplefrag.NewFragmenter(size).Fragment(orig, c19ToTL(ls))
			ps := make([]string, len(frags))
			for i, f := range frags {
				ps[i] = fmt.Sprintf("%d-%d", f.Start, f.End)
			}
			if len(ps) == 0 {
				return "-"
			}
			return strings.Join(ps, ",")
		})
		if strings.HasPrefix(res, "PANIC") {
			res = "PANIC"
		}
		cat := "highlight-model/fragmenter-wellformed"
		if !wf {
			cat = "highlight-model/fragmenter-malformed"
		}
		t.Emit(cat, len(ls) > 0, fmt.Sprintf("hfrag %d %s %s", size, hs(string(orig)), c19LocsStr(ls)), res)

		// merge: locations over two array positions
		ls2, wf2 := c19GenLocs(r, orig, 2)
		tl2 := c19ToTL(ls2)
		mres := runGuarded(limit, func() string {
			tl2.MergeOverlapping()
			ps := make([]string, len(tl2))
			for i, l := range tl2 {
				if l == nil {
					ps[i] = "nil"
				} else {
					ps[i] = fmt.Sprintf("%d:%d:%d", l.Start, l.End, l.ArrayPositions[0])
				}
			}
			if len(ps) == 0 {
				return "-"
			}
			return strings.Join(ps, ",")
		})
		cat = "highlight-model/merge-wellformed"
		if !wf2 {
			cat = "highlight-model/merge-malformed"
		}
		t.Emit(cat, len(ls2) > 1, "hmerge "+c19LocsStr(ls2), mres)

		// formatters over the fragments the fragmenter produced (or one in-bounds fragment), merged locations
		merged := make([]*c19Loc, len(tl2))
		for i, l := range tl2 {
			if l != nil {
				merged[i] = &c19Loc{l.Start, l.End, int(l.ArrayPositions[0])}
			}
		}
		type fr struct{ s, e int }
		var fl []fr
		for _, f := range frags {
			fl = append(fl, fr{f.Start, f.End})
		}
		if len(fl) == 0 || r.Chance(30) {
			a := r.Intn(len(orig) + 1)
			fl = append(fl, fr{a, a + r.Intn(len(orig)-a+1)})
		}
		for _, f := range fl {
			if f.s < 0 || f.s > f.e || f.e > len(orig) {
				continue // reported by the fragmenter line
			}
			for _, name := range []string{"html", "plain", "ansi"} {
				fap := r.Intn(2)
				out := runGuarded(limit, func() string {
					return hs(frs[name].Format(&highlight.Fragment{Orig: orig, Start: f.s, End: f.e, ArrayPositions: search.ArrayPositions{uint64(fap)}}, c19ToTL(merged)))
				})
				if strings.HasPrefix(out, "PANIC") {
					out = "PANIC"
				}
				cat := "highlight-model/format-" + name
				if !wf2 {
					cat += "-malformed"
				}
				t.Emit(cat, len(merged) > 0, fmt.Sprintf("hfmt %s %s %d %d %d %s", frArgs[name], hs(string(orig)), f.s, f.e, fap, c19LocsStr(merged)), out)
			}
		}
	}
}
