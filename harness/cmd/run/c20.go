package main

import (
	"fmt"
	"sort"
	"strings"

	"github.com/blevesearch/bleve/v2"
	"github.com/blevesearch/bleve/v2/index/scorch"
	"github.com/blevesearch/bleve/v2/mapping"
	"github.com/blevesearch/bleve/v2/search/query"
)

func init() { props["c20"] = runC20 }

type nElem map[string]string

type nDoc struct {
	id    string
	title string
	emps  []nElem    // name, role (an element may have neither: it then holds only its tags)
	tags  [][]string // per employee: the tag objects inside it
	offs  []nElem    // city
}

var c20Tags = []string{"red", "blue", "green"}

func c20Mapping(nested bool) mapping.IndexMapping {
	m := bleve.NewIndexMapping()
	kw := func() *mapping.FieldMapping {
		f := bleve.NewTextFieldMapping()
		f.Analyzer = "keyword"
		return f
	}
	dm := bleve.NewDocumentMapping()
	dm.AddFieldMappingsAt("title", kw())
	mk := func() *mapping.DocumentMapping {
		if nested {
			return mapping.NewNestedDocumentMapping()
		}
		return bleve.NewDocumentMapping()
	}
	emps := mk()
	emps.AddFieldMappingsAt("name", kw())
	emps.AddFieldMappingsAt("role", kw())
	tags := mk() // a second nesting level: every employee has an array of tag objects
	tags.AddFieldMappingsAt("tag", kw())
	emps.AddSubDocumentMapping("tags", tags)
	dm.AddSubDocumentMapping("emps", emps)
	offs := mk()
	offs.AddFieldMappingsAt("city", kw())
	dm.AddSubDocumentMapping("offs", offs)
	m.DefaultMapping = dm
	return m
}

var c20Names = []string{"ann", "bob", "cy"}
var c20Roles = []string{"dev", "ops", "qa"}
var c20Cities = []string{"oslo", "rome"}
var c20Titles = []string{"alpha", "beta", "gamma"}

func genNDoc(r *Rng, i int) nDoc {
	d := nDoc{id: fmt.Sprintf("p%03d", i), title: c20Titles[r.Intn(3)]}
	ne := []int{0, 1, 2, 2, 3}[r.Intn(5)]
	for k := 0; k < ne; k++ {
		e := nElem{"name": c20Names[r.Intn(3)], "role": c20Roles[r.Intn(3)]}
		nt := []int{0, 0, 1, 2}[r.Intn(4)]
		if r.Chance(15) { // an element with no field of its own, only the inner array
			e = nElem{}
			nt = 1 + r.Intn(2)
		}
		var ts []string
		for j := 0; j < nt; j++ {
			ts = append(ts, c20Tags[r.Intn(3)])
		}
		d.emps = append(d.emps, e)
		d.tags = append(d.tags, ts)
	}
	no := []int{0, 1, 2}[r.Intn(3)]
	for k := 0; k < no; k++ {
		d.offs = append(d.offs, nElem{"city": c20Cities[r.Intn(2)]})
	}
	return d
}

func (d nDoc) asMap() map[string]interface{} {
	mp := map[string]interface{}{"title": d.title}
	toArr := func(es []nElem) []interface{} {
		out := make([]interface{}, len(es))
		for i, e := range es {
			m := map[string]interface{}{}
			for k, v := range e {
				m[k] = v
			}
			out[i] = m
		}
		return out
	}
	emps := toArr(d.emps)
	for i, ts := range d.tags {
		if len(ts) > 0 {
			arr := make([]interface{}, len(ts))
			for j, tg := range ts {
				arr[j] = map[string]interface{}{"tag": tg}
			}
			emps[i].(map[string]interface{})["tags"] = arr
		}
	}
	mp["emps"] = emps
	mp["offs"] = toArr(d.offs)
	return mp
}

func (d nDoc) tokens() string {
	// the document's own object, then every array element at any depth: array path, indexes, fields
	var nodes []string
	node := func(apath, idx string, fields []string, e map[string]string) {
		var sb strings.Builder
		n := 0
		for _, f := range fields {
			if v, ok := e[f]; ok {
				fmt.Fprintf(&sb, " %s %s", hs(f), hs(v))
				n++
			}
		}
		nodes = append(nodes, fmt.Sprintf("%s %s %d%s", apath, idx, n, sb.String()))
	}
	node("-", "-", []string{"title"}, map[string]string{"title": d.title})
	for i, e := range d.emps {
		node(hs("emps"), fmt.Sprint(i), []string{"name", "role"}, e)
		for j, tg := range d.tags[i] {
			node(hs("emps")+"."+hs("tags"), fmt.Sprintf("%d.%d", i, j), []string{"tag"}, map[string]string{"tag": tg})
		}
	}
	for i, e := range d.offs {
		node(hs("offs"), fmt.Sprint(i), []string{"city"}, e)
	}
	return fmt.Sprintf("%s %d %s", hs(d.id), len(nodes), strings.Join(nodes, " "))
}

type nq struct {
	q      query.Query
	tok    string
	mustNo bool // contains a must_not clause
	minSh  bool // contains a count >= 2 (disjunction min / should min) over clauses on different levels: must combine per parent
	ambig  bool // contains a count >= 2 over clauses of one and the same array: the statement does not say per element or per parent
	reqSh  bool // contains a boolean with must clauses and a required should (min >= 1) whose clauses may address different levels
}

func genNLeaf(r *Rng, only string) nq {
	type lf struct {
		arr, field string
		vals       []string
	}
	all := []lf{{"", "title", c20Titles}, {"emps", "name", c20Names}, {"emps", "role", c20Roles}, {"offs", "city", c20Cities},
		{"emps.tags", "tag", c20Tags}, {"emps.tags", "tag", c20Tags}}
	var cands []lf
	for _, l := range all {
		if only == "*" || l.arr == only || strings.HasPrefix(l.arr, only+".") {
			cands = append(cands, l)
		}
	}
	l := cands[r.Intn(len(cands))]
	v := l.vals[r.Intn(len(l.vals))]
	path := l.field
	arrTok := "-"
	if l.arr != "" {
		path = l.arr + "." + l.field
		comps := strings.Split(l.arr, ".")
		for i := range comps {
			comps[i] = hs(comps[i])
		}
		arrTok = strings.Join(comps, ".")
	}
	q := bleve.NewTermQuery(v)
	q.SetField(path)
	return nq{q: q, tok: fmt.Sprintf("T %s %s %s", arrTok, hs(l.field), hs(v))}
}

// a leaf on a top-level field
func genNLeafTop(r *Rng) nq {
	v := c20Titles[r.Intn(len(c20Titles))]
	q := bleve.NewTermQuery(v)
	q.SetField("title")
	return nq{q: q, tok: fmt.Sprintf("T - %s %s", hs("title"), hs(v))}
}

func genNQuery(r *Rng, depth int, only string) nq {
	if depth <= 0 || r.Chance(30) {
		return genNLeaf(r, only)
	}
	ambig := false
	reqSh := false
	kids := func(lo, hi int, only string) ([]query.Query, string, bool, bool) {
		n := r.Range(lo, hi)
		qs := make([]query.Query, n)
		var sb strings.Builder
		mn, ms := false, false
		for i := range qs {
			k := genNQuery(r, depth-1, only)
			qs[i] = k.q
			sb.WriteString(" " + k.tok)
			mn = mn || k.mustNo
			ms = ms || k.minSh
			ambig = ambig || k.ambig
			reqSh = reqSh || k.reqSh
		}
		return qs, fmt.Sprintf("%d%s", n, sb.String()), mn, ms
	}
	// half of the compound queries keep all leaves inside one array (same-element semantics)
	sub := only
	if only == "*" && r.Chance(50) {
		sub = []string{"emps", "emps", "offs"}[r.Intn(3)]
	}
	if only == "*" && r.Chance(20) {
		// hot shape: a conjunction of three or four plain clauses on different levels (the two arrays and the
		// top level), in any order: the nested conjunction has to line up several lagging clauses on one parent
		n := 3 + r.Intn(2)
		levels := []string{"", "emps", "offs", "emps"}
		r2 := r.Fork()
		for i := len(levels) - 1; i > 0; i-- {
			j := r2.Intn(i + 1)
			levels[i], levels[j] = levels[j], levels[i]
		}
		qs := make([]query.Query, n)
		var sb strings.Builder
		for i := 0; i < n; i++ {
			lv := levels[i]
			var k nq
			if lv == "" {
				k = genNLeafTop(r)
			} else {
				k = genNLeaf(r, lv)
			}
			qs[i] = k.q
			sb.WriteString(" " + k.tok)
		}
		return nq{bleve.NewConjunctionQuery(qs...), fmt.Sprintf("C %d%s", n, sb.String()), false, false, false, false}
	}
	if only == "*" && r.Chance(10) {
		// hot shape: a top-level clause and three or four clauses on one array, some of them the same clause twice:
		// several conjuncts are met by one and the same element
		e1, e2 := genNLeaf(r, "emps"), genNLeaf(r, "emps")
		top := genNLeafTop(r)
		cl := []nq{top, e1, e2, e1}
		if r.Bool() {
			cl = append(cl, e2)
		}
		r2 := r.Fork()
		for i := len(cl) - 1; i > 0; i-- {
			j := r2.Intn(i + 1)
			cl[i], cl[j] = cl[j], cl[i]
		}
		qs := make([]query.Query, len(cl))
		var sb strings.Builder
		for i, k := range cl {
			qs[i] = k.q
			sb.WriteString(" " + k.tok)
		}
		return nq{bleve.NewConjunctionQuery(qs...), fmt.Sprintf("C %d%s", len(cl), sb.String()), false, false, false, false}
	}
	if only == "*" && r.Chance(18) {
		// hot shape: a cross-level conjunction that is itself a clause of a conjunction whose other clauses
		// address the remaining levels: the outer one Advances the inner nested conjunction over whole groups
		levels := []string{"", "emps", "offs"}
		r2 := r.Fork()
		for i := len(levels) - 1; i > 0; i-- {
			j := r2.Intn(i + 1)
			levels[i], levels[j] = levels[j], levels[i]
		}
		leaf := func(lv string) nq {
			if lv == "" {
				return genNLeafTop(r)
			}
			return genNLeaf(r, lv)
		}
		a, b := leaf(levels[0]), leaf(levels[1])
		inner := nq{q: bleve.NewConjunctionQuery(a.q, b.q), tok: fmt.Sprintf("C 2 %s %s", a.tok, b.tok)}
		if r.Chance(30) { // a third inner clause, on one of the two levels again
			c := leaf(levels[r.Intn(2)])
			inner = nq{q: bleve.NewConjunctionQuery(a.q, b.q, c.q), tok: fmt.Sprintf("C 3 %s %s %s", a.tok, b.tok, c.tok)}
		}
		outer := []nq{inner, leaf(levels[2])}
		if r.Chance(30) {
			outer = append(outer, leaf(levels[r.Intn(3)]))
		}
		if r.Bool() {
			outer[0], outer[1] = outer[1], outer[0]
		}
		qs := make([]query.Query, len(outer))
		var sb strings.Builder
		for i, k := range outer {
			qs[i] = k.q
			sb.WriteString(" " + k.tok)
		}
		return nq{bleve.NewConjunctionQuery(qs...), fmt.Sprintf("C %d%s", len(outer), sb.String()), false, false, false, false}
	}
	switch r.Intn(4) {
	case 0, 1:
		qs, t, mn, ms := kids(2, 3, sub)
		return nq{bleve.NewConjunctionQuery(qs...), "C " + t, mn, ms, ambig, reqSh}
	case 2:
		qs, t, mn, ms := kids(2, 3, sub)
		dq := bleve.NewDisjunctionQuery(qs...)
		min := r.Intn(len(qs) + 1)
		dq.SetMin(float64(min))
		if min >= 2 {
			if sub == "*" {
				ms = true
			} else {
				ambig = true
			}
		}
		return nq{dq, fmt.Sprintf("D %d %s", min, t), mn, ms, ambig, reqSh}
	default:
		bq := bleve.NewBooleanQuery()
		var sb strings.Builder
		sb.WriteString("O")
		mustNo, minSh := false, false
		hasMust := r.Chance(65)
		if hasMust {
			qs, t, mn, ms := kids(1, 2, sub)
			bq.AddMust(qs...)
			sb.WriteString(" " + t)
			mustNo, minSh = mn, ms
		} else {
			sb.WriteString(" 0")
		}
		minS := 0
		if r.Chance(50) || !hasMust {
			qs, t, mn, ms := kids(1, 3, sub)
			bq.AddShould(qs...)
			if r.Chance(50) {
				minS = r.Intn(len(qs) + 1)
			}
			bq.SetMinShould(float64(minS))
			sb.WriteString(" " + t)
			mustNo, minSh = mustNo || mn, minSh || ms
			if minS >= 2 {
				if sub == "*" {
					minSh = true
				} else {
					ambig = true
				}
			}
			if hasMust && minS >= 1 {
				if sub == "*" {
					reqSh = true
				} else {
					// must and a required should inside one array: the statement does not say whether one
					// element has to satisfy both (as for a conjunction) or the parent
					ambig = true
				}
			}
		} else {
			sb.WriteString(" 0")
		}
		if r.Chance(25) {
			qs, t, _, ms := kids(1, 2, sub)
			bq.AddMustNot(qs...)
			sb.WriteString(" " + t)
			mustNo, minSh = true, minSh || ms
		} else {
			sb.WriteString(" 0")
		}
		fmt.Fprintf(&sb, " %d", minS)
		return nq{bq, sb.String(), mustNo, minSh, ambig, reqSh}
	}
}

func runC20(t *Trace, r *Rng, tier string, _ []string) {
	nCorp, nQ := 24, 80
	if tier == "thorough" {
		nCorp, nQ = 100, 200
	}
	for ci := 0; ci < nCorp; ci++ {
		for _, nested := range []bool{true, false} {
			idx, err := bleve.NewUsing("", c20Mapping(nested), scorch.Name, scorch.Name, nil)
			must(err)
			nDocs := r.Range(4, 12)
			oneSegment := ci%3 != 0 // many parents in one segment: cursors can lag by whole groups
			if oneSegment {
				nDocs = r.Range(10, 24)
			}
			live := map[string]nDoc{}
			batch := idx.NewBatch()
			for i := 0; i < nDocs; i++ {
				d := genNDoc(r, i)
				live[d.id] = d
				must(batch.Index(d.id, d.asMap()))
				if !oneSegment && r.Chance(30) {
					must(idx.Batch(batch))
					batch = idx.NewBatch()
				}
			}
			must(idx.Batch(batch))
			// several separate update / delete batches on the same segments
			for k := 0; k < nDocs/2; k++ {
				i := r.Intn(nDocs)
				id := fmt.Sprintf("p%03d", i)
				if r.Bool() {
					d := genNDoc(r, i)
					live[id] = d
					must(idx.Index(id, d.asMap()))
				} else {
					delete(live, id)
					must(idx.Delete(id))
				}
			}
			docs := make([]nDoc, 0, len(live))
			for _, d := range live {
				docs = append(docs, d)
			}
			sort.Slice(docs, func(a, b int) bool { return docs[a].id < docs[b].id })
			var cb strings.Builder
			fmt.Fprintf(&cb, "%d", len(docs))
			for _, d := range docs {
				cb.WriteString(" " + d.tokens())
			}
			corpus := cb.String()
			mode := "unnested"
			if nested {
				mode = "nested"
			}
			// counts: DocCount and match-all count parents, each once
			cnt, _ := idx.DocCount()
			t.Emit(mode+"/doccount", true, fmt.Sprintf("echo %d", len(docs)), fmt.Sprint(cnt))
			sr, err := idx.Search(bleve.NewSearchRequestOptions(bleve.NewMatchAllQuery(), nDocs*6+10, 0, false))
			if err == nil {
				ids := make([]string, len(sr.Hits))
				for i, h := range sr.Hits {
					ids[i] = h.ID
				}
				sort.Strings(ids)
				exp := make([]string, len(docs))
				for i, d := range docs {
					exp[i] = d.id
				}
				t.Emit(mode+"/matchall", true, fmt.Sprintf("echo %d:%s", len(exp), strings.Join(exp, ",")), fmt.Sprintf("%d:%s", sr.Total, strings.Join(ids, ",")))
			}
			for qi := 0; qi < nQ; qi++ {
				g := genNQuery(r, 3, "*")
				sr, err := idx.Search(bleve.NewSearchRequestOptions(g.q, nDocs*6+10, 0, false))
				op := fmt.Sprintf("nsearch %v %s | %s", nested, corpus, g.tok)
				cat := mode + "/search"
				if nested && g.ambig {
					continue // not judged (see nq.ambig)
				}
				if nested && g.mustNo {
					cat = "nested/search-with-must-not"
				} else if nested && g.minSh {
					cat = "nested/search-with-min-count"
				} else if nested && g.reqSh {
					cat = "nested/search-with-required-should-across-levels"
				}
				if err != nil {
					t.Emit(cat+"-err", true, op, "ERR")
					continue
				}
				ids := make([]string, len(sr.Hits))
				seen := map[string]bool{}
				dup := false
				for i, h := range sr.Hits {
					ids[i] = h.ID
					if seen[h.ID] {
						dup = true
					}
					seen[h.ID] = true
				}
				sort.Strings(ids)
				hexes := make([]string, len(ids))
				for i, id := range ids {
					hexes[i] = hs(id)
				}
				l := strings.Join(hexes, ",")
				if l == "" {
					l = "-"
				}
				res := fmt.Sprintf("%d %s", sr.Total, l)
				if dup {
					res = "DUPLICATE-PARENT " + res
				}
				t.Emit(cat, len(ids) > 0 && len(ids) < len(docs), op, res)
			}
			idx.Close()
		}
	}
}
