// Command run is the correspondence harness: it links the real bleve packages from /repo,
// generates seeded cases, runs the implementation and writes a trace (ops.txt for the Lean
// model driver, impl.txt with the implementation's answers, stats.json with the distribution).
package main

import (
	"flag"
	"fmt"
	_ "github.com/blevesearch/bleve/v2/config"
	"os"
)

type runFn func(t *Trace, rng *Rng, tier string, args []string)

var props = map[string]runFn{}

// childModes are re-executions of this binary as a workload process (crash harness)
var childModes = map[string]func(){}

// runSeed is the seed this run was started with (shards of a thorough run differ in it).
var runSeed uint64

func main() {
	if len(os.Args) < 2 {
		fmt.Fprintln(os.Stderr, "usage: run <prop> [-tier quick|thorough] [-seed N] [-out DIR] [extra...]")
		os.Exit(2)
	}
	prop := os.Args[1]
	if f, ok := childModes[prop]; ok {
		f()
		return
	}
	fs := flag.NewFlagSet(prop, flag.ExitOnError)
	tier := fs.String("tier", "quick", "quick|thorough")
	seed := fs.Uint64("seed", 1, "seed")
	out := fs.String("out", "", "output directory")
	fs.Parse(os.Args[2:])
	fn, ok := props[prop]
	if !ok {
		fmt.Fprintln(os.Stderr, "unknown property driver", prop)
		os.Exit(2)
	}
	if *out == "" {
		fmt.Fprintln(os.Stderr, "-out required")
		os.Exit(2)
	}
	t := NewTrace(*out)
	t.Set("seed", *seed)
	t.Set("tier", *tier)
	runSeed = *seed
	fn(t, NewRng(*seed), *tier, fs.Args())
	t.Close()
}
