#!/bin/sh
# Build everything the checks need from files on disk only (offline).
set -e
cd "$(dirname "$0")"
export GOFLAGS=-mod=mod GOPROXY=off
unset GOSUMDB
mkdir -p .build evidence replays
cp /repo/go.sum harness/go.sum
(cd harness && go build -o ../.build/extract ./cmd/extract && go build -tags verif -o ../.build/run ./cmd/run)
tmp=$(mktemp -d)
./.build/extract -repo /repo -out "$tmp"
mkdir -p lean/BleveModel/Gen
for f in "$tmp"/*.lean; do cmp -s "$f" "lean/BleveModel/Gen/$(basename "$f")" || cp "$f" lean/BleveModel/Gen/; done
rm -rf "$tmp"
(cd lean && lake build)
echo setup-ok
